"""C07 — compilers preserve solvability and every original plan: the structural clause
*compilation never drops a needed grounding / action variant*.

Decides: (1) in GrounderHelper.get_possible_parameters only conditions that are positive Boolean literals over
*static* fluents reach _purge_items_list, pruning happens only under self._prune_actions, and the set of valid
objects is read from the complete initial state unless the fluent's default is false; split_all_ands splits
only And nodes; (2) get_grounded_actions enumerates every action x every possible parameter tuple and yields
each; (3) the simulator and both validators construct their GrounderHelper with prune_actions=False;
(4) action splitting is exhaustive: ConditionalEffectsRemover enumerates the full powerset of conditional
effects and each effect contributes its condition or its negation on the two branches;
DisjunctiveConditionsRemover creates one action per DNF disjunct (loop over the Or's args, or the single
conjunct); (5) powerset() ranges r over 0..len(s) inclusive.
Does not decide: existence of compiled counterparts for every plan.
"""
from __future__ import annotations

import ast
from typing import List, Set

from ..index import AnalysisError, Index, call_name, norm, walk_no_nested
from ..report import Report
from ..rules import cfg_nodes_with_call, cfg_of, guards_dominating, path_text

GH = "engines.compilers.grounder.GrounderHelper"


def _conjuncts(test: ast.AST, outcome: bool) -> Set[str]:
    if isinstance(test, ast.BoolOp) and isinstance(test.op, ast.And) and outcome:
        out: Set[str] = set()
        for v in test.values:
            out |= _conjuncts(v, True)
        return out
    if isinstance(test, ast.UnaryOp) and isinstance(test.op, ast.Not):
        return {("not " if outcome else "") + norm(test.operand)} if outcome else _conjuncts(test.operand, True)
    return {norm(test)} if outcome else {"not " + norm(test)}


def run(idx: Index, rep: Report, tier: str) -> None:
    rep.explanation = __doc__.strip()
    gpp = idx.func(GH + ".get_possible_parameters")
    cfg = cfg_of(gpp)
    rep.note_function(gpp.qualname)
    # ---------------------------------------------------------------- (1) what reaches the pruning
    rule1 = "C07.1 T2 only-static-positive-literals-prune"
    # roles, recognised by use: the condition lists handed to _purge_items_list(conds=…), the static-fluent set
    # (bound from get_static_fluents()), the conjunct lists (bound from split_all_ands(…))
    purge_calls = [c for _, c in cfg_nodes_with_call(cfg, "_purge_items_list")]
    cond_lists = {norm(k.value) for c in purge_calls for k in c.keywords if k.arg == "conds" and isinstance(k.value, ast.Name)}
    static_sets = {norm(a.targets[0]) for a in walk_no_nested(gpp.node) if isinstance(a, ast.Assign) and isinstance(a.value, ast.Call) and call_name(a.value) == "get_static_fluents"}
    and_lists = {norm(a.targets[0]) for a in walk_no_nested(gpp.node) if isinstance(a, ast.Assign) and isinstance(a.value, ast.Call) and call_name(a.value) == "split_all_ands"}
    apps = [(n, c) for n, c in cfg_nodes_with_call(cfg, "append") if norm(c.func.value) in cond_lists]

    # the same filter written as a comprehension (`[c for c in split_all_ands(…) if c.is_fluent_exp() and …]`), here
    # or in a helper (function of the module / private method) whose result is the list handed to the pruning
    def _comprehension_sites(fn_node, names, smap):
        out = []
        for a in walk_no_nested(fn_node):
            val = None
            if isinstance(a, ast.Assign) and len(a.targets) == 1 and norm(a.targets[0]) in names:
                val = a.value
            elif isinstance(a, ast.Return) and names == {"<return>"}:
                val = a.value
            if isinstance(val, (ast.ListComp, ast.GeneratorExp, ast.SetComp)) and len(val.generators) == 1 and isinstance(val.elt, ast.Name) and norm(val.generators[0].target) == val.elt.id:
                g = val.generators[0]
                fs = set()
                for t in g.ifs:
                    fs |= _conjuncts(t, True)
                for k, v_ in smap.items():
                    fs = {x.replace(f" in {k}", f" in {v_}") for x in fs}
                out.append((val.elt.id, fs, a, norm(g.iter)))
        return out

    comp_sites = _comprehension_sites(gpp.node, cond_lists, {})
    helper_sites = []
    helper_and_lists = set()
    for a in walk_no_nested(gpp.node):
        if isinstance(a, ast.Assign) and len(a.targets) == 1 and norm(a.targets[0]) in cond_lists and isinstance(a.value, ast.Call):
            hn = call_name(a.value)
            cands = [f_ for f_ in idx.all_funcs() if f_.node.name == hn and f_.module is gpp.module]
            for h in cands[:1]:
                hp = [p_ for p_ in h.params() if p_ != "self"]
                smap = {p_: norm(arg) for p_, arg in zip(hp, a.value.args)}
                rep.note_function(h.qualname)
                helper_and_lists |= {norm(x.targets[0]) for x in walk_no_nested(h.node) if isinstance(x, ast.Assign) and isinstance(x.value, ast.Call) and call_name(x.value) == "split_all_ands"}
                helper_sites += _comprehension_sites(h.node, {"<return>"}, smap)
                hcfg = cfg_of(h)
                rets = {norm(r.value) for r in walk_no_nested(h.node) if isinstance(r, ast.Return) and isinstance(r.value, ast.Name)}
                for hn_, hc in cfg_nodes_with_call(hcfg, "append"):
                    if norm(hc.func.value) in rets and hc.args:
                        fs = set()
                        for t, o in guards_dominating(hcfg, hn_):
                            fs |= _conjuncts(t.ast, o)
                        for k, v_ in smap.items():
                            fs = {x.replace(f" in {k}", f" in {v_}") for x in fs}
                        encl = [l for l in hcfg.nodes if l.kind == "for" and any(x is hc for st in l.owner.body for x in ast.walk(st))]
                        helper_sites.append((norm(hc.args[0]), fs, hc, norm(encl[-1].owner.iter) if encl else "?"))
    if len(apps) + len(comp_sites) + len(helper_sites) < 1:
        raise AnalysisError("anchor vanished: no list is filled and handed to _purge_items_list(conds=…) in get_possible_parameters")
    sites = []
    for n, c in apps:
        facts: Set[str] = set()
        for t, outcome in guards_dominating(cfg, n):
            facts |= _conjuncts(t.ast, outcome)
        sites.append((norm(c.args[0]), facts, c))
    sites += [(v_, fs, node) for v_, fs, node, _ in comp_sites + helper_sites]
    for v, facts, c in sites:
        need = {(f"{v}.is_fluent_exp()",): "a positive fluent literal", (f"{v}.fluent().type.is_bool_type()",): "a Boolean fluent", tuple(f"{v}.fluent() in {S}" for S in sorted(static_sets)) or (f"{v}.fluent() in <static fluents>",): "a static fluent"}
        for ks, why in need.items():
            k = next((x for x in ks if x in facts), ks[0])
            rep.check(k in facts, rule1, f"condition used for pruning is {why}", gpp.loc(c), construct=k, detail="" if k in facts else f"a condition reaches the static-fluent pruning without the guard `{k}`: groundings that some valid plan needs can be dropped", function=gpp.qualname)
    rep.count("prune_append_sites", len(sites))
    # problem_static_fluents really is the static set
    sf = [a for a in walk_no_nested(gpp.node) if isinstance(a, ast.Assign) and norm(a.targets[0]) in static_sets]
    ok = bool(sf) and all(norm(a.value) == "self._problem.get_static_fluents()" for a in sf)
    rep.check(ok, rule1, "the static set is self._problem.get_static_fluents()", gpp.loc(sf[0]) if sf else gpp.loc(), construct=norm(sf[0]) if sf else "", function=gpp.qualname)
    purges = cfg_nodes_with_call(cfg, "_purge_items_list")
    if not purges:
        raise AnalysisError("anchor vanished: _purge_items_list call")
    for n, c in purges:
        facts = set()
        for t, outcome in guards_dominating(cfg, n):
            facts |= _conjuncts(t.ast, outcome)
        ok = "self._prune_actions" in facts
        if not ok:
            # the switch may act through an optional local: `x = None; if self._prune_actions: x = …; if x is not None: purge`
            for fact in sorted(facts):
                if not fact.endswith(" is not None"):
                    continue
                x = fact[: -len(" is not None")]
                stores = [m for m in cfg.nodes if m.kind == "stmt" and isinstance(m.ast, (ast.Assign, ast.AnnAssign)) and m.ast.value is not None and norm(m.ast.targets[0] if isinstance(m.ast, ast.Assign) else m.ast.target) == x]
                setters = [m for m in stores if not (isinstance(m.ast.value, ast.Constant) and m.ast.value.value is None)]
                if stores and setters and len(setters) < len(stores) and all("self._prune_actions" in set().union(*[_conjuncts(t.ast, o) for t, o in guards_dominating(cfg, m)] or [set()]) for m in setters):
                    ok = True
        rep.check(ok, rule1, "pruning only under self._prune_actions", gpp.loc(c), construct=norm(c)[:80], detail="" if ok else "static-fluent pruning runs even when prune_actions=False", function=gpp.qualname)
        kw = {k.arg: norm(k.value) for k in c.keywords}
        rep.check(kw.get("conds") in cond_lists, rule1, "pruning receives only the filtered conditions", gpp.loc(c), construct=f"conds={kw.get('conds')}", function=gpp.qualname)
    # conditions come from top-level conjuncts only
    for v_, fs, node, it in comp_sites + helper_sites:
        ok = it in and_lists or it in helper_and_lists or it.startswith("split_all_ands(")
        rep.check(ok, rule1, "pruning conditions are top-level conjuncts (split_all_ands)", gpp.loc(node) if node in list(ast.walk(gpp.node)) else gpp.loc(), construct=f"for … in {it}", detail="" if ok else "the conditions used for pruning are not taken from the top-level conjunction: a literal under a disjunction or negation would prune groundings that do satisfy the precondition", function=gpp.qualname)
    for n, c in apps:
        encl = [l for l in cfg.nodes if l.kind == "for" and any(x is c for st in l.owner.body for x in ast.walk(st))]
        ok = bool(encl) and all(norm(l.owner.iter) in and_lists for l in encl[-1:])
        rep.check(ok, rule1, "pruning conditions are top-level conjuncts (split_all_ands)", gpp.loc(c), construct=f"for … in {norm(encl[-1].owner.iter) if encl else '?'}", detail="" if ok else "the conditions used for pruning are not taken from the top-level conjuncts of the preconditions", function=gpp.qualname)
    saa = idx.func("engines.compilers.utils.split_all_ands")
    rep.note_function(saa.qualname)
    tests = [n for n in walk_no_nested(saa.node) if isinstance(n, ast.If)]
    returned = {norm(r.value) for r in walk_no_nested(saa.node) if isinstance(r, ast.Return) and isinstance(r.value, ast.Name)}
    ok = len(tests) == 1 and norm(tests[0].test).endswith(".is_and()") and any(isinstance(c, ast.Call) and call_name(c) == "append" and norm(c.func.value) in returned for s in tests[0].orelse for c in ast.walk(s))
    rep.check(ok, rule1, "split_all_ands splits And nodes only and keeps every other expression", saa.loc(), construct=norm(tests[0].test) if tests else "", detail="" if ok else "split_all_ands descends into something other than conjunctions (a disjunct would be treated as a necessary condition)", function=saa.qualname)
    # valid objects: complete initial state unless default false
    bs = idx.func(GH + "._bool_static_fluent_valid_parameters")
    rep.note_function(bs.qualname)
    bcfg = cfg_of(bs)
    for l in [n for n in bcfg.nodes if n.kind == "for"]:
        it = norm(l.owner.iter)
        if "explicit_initial_values" in it:
            facts = set()
            for t, outcome in guards_dominating(bcfg, l):
                facts |= _conjuncts(t.ast, outcome)
            ok = any(f.endswith(".is_false()") for f in facts) and any("is not None" in f for f in facts)
            rep.check(ok, rule1, "explicit initial values suffice only when the default is false", bs.loc(l.owner), construct=f"for ... in {it}", detail="" if ok else "the valid-object set is computed from explicit values although the default may be true: objects whose value comes from the default are pruned", function=bs.qualname)
        elif "initial_values" in it:
            rep.ok(rule1, "otherwise the complete initial state is consulted", bs.loc(l.owner), construct=f"for ... in {it}", function=bs.qualname)
        adds = [c for s in l.owner.body for c in ast.walk(s) if isinstance(c, ast.Call) and call_name(c) == "add"]
        tests2 = [s for s in l.owner.body if isinstance(s, ast.If)]
        ok = bool(adds) and bool(tests2) and all("is_true()" in norm(t.test) and "fluent()" in norm(t.test) for t in tests2)
        rep.check(ok, rule1, "an object is valid iff the static fluent is true for it", bs.loc(l.owner), construct=norm(tests2[0].test) if tests2 else "", function=bs.qualname)
    rep.require_min(rule1, "prune_append_sites", 1)

    # ---------------------------------------------------------------- (2) enumeration is complete
    rule2 = "C07.2 grounding-enumeration-complete"
    gga = idx.func(GH + ".get_grounded_actions")
    rep.note_function(gga.qualname)
    fors = [n for n in walk_no_nested(gga.node) if isinstance(n, ast.For)]
    its = [norm(f.iter) for f in fors]
    ok = len(fors) == 2 and its[0] == "self._problem.actions" and "get_possible_parameters" in its[1]
    rep.check(ok, rule2, "every action x every possible parameter tuple", gga.loc(), construct="; ".join(its), function=gga.qualname)
    gcfg = cfg_of(gga)
    ys = [n for n in gcfg.nodes if n.ast is not None and n.kind == "stmt" and any(isinstance(x, ast.Yield) for x in ast.walk(n.ast))]
    inner = [n for n in gcfg.nodes if n.kind == "for" and "get_possible_parameters" in norm(n.owner.iter)]
    ok = bool(ys) and bool(inner)
    if ok:
        first = [s for s in gcfg.g.successors(inner[0]) if gcfg.g[inner[0]][s].get("label") is True]
        w = None
        for s in first:
            w = w or (gcfg.path_avoiding(s, inner[0], set(ys)) if s not in ys else None)
        ok = w is None
    rep.check(ok, rule2, "each grounding is yielded (no iteration is skipped)", gga.loc(), construct=norm(ys[0].ast) if ys else "", detail="" if ok else "an iteration over the possible parameters can finish without yielding", function=gga.qualname)
    # product of the items lists
    prods = [c for c in walk_no_nested(gpp.node) if isinstance(c, ast.Call) and call_name(c) == "product"]
    item_lists = {norm(k.value) for c in purge_calls for k in c.keywords if k.arg == "items_list"} | {norm(a.targets[0]) for a in walk_no_nested(gpp.node) if isinstance(a, ast.Assign) and isinstance(a.value, ast.Call) and call_name(a.value) == "_purge_items_list"}
    ok = bool(prods) and all(len(c.args) == 1 and isinstance(c.args[0], ast.Starred) and norm(c.args[0].value) in item_lists for c in prods)
    rep.check(ok, rule2, "parameters = full cartesian product of the per-parameter domains", gpp.loc(prods[0]) if prods else gpp.loc(), construct=norm(prods[0]) if prods else "", function=gpp.qualname)
    rng = [c for c in walk_no_nested(gpp.node) if isinstance(c, ast.Call) and call_name(c) == "range"]
    from ..dataflow import DefUse

    gdu = DefUse(cfg)
    ds_vals = {norm(a.targets[0]) for a in walk_no_nested(gpp.node) if isinstance(a, ast.Assign) and isinstance(a.value, ast.Call) and call_name(a.value) == "domain_size"}
    ds_lists = {norm(c.func.value) for c in walk_no_nested(gpp.node) if isinstance(c, ast.Call) and call_name(c) == "append" and c.args and norm(c.args[0]) in ds_vals}
    # … or built in one go: `sizes = [domain_size(problem, t) for t in types]`
    ds_lists |= {norm(a.targets[0]) for a in walk_no_nested(gpp.node) if isinstance(a, ast.Assign) and len(a.targets) == 1 and isinstance(a.value, (ast.ListComp, ast.GeneratorExp)) and isinstance(a.value.elt, ast.Call) and call_name(a.value.elt) == "domain_size"}
    ok = bool(rng) and bool(ds_lists)
    for c in rng:
        # the name given to range() is bound by a for statement or a comprehension clause that iterates the sizes
        binders = []
        for l in ast.walk(gpp.node):
            if isinstance(l, ast.For) and any(x is c for st in l.body for x in ast.walk(st)):
                binders.append((l.target, l.iter))
            elif isinstance(l, (ast.ListComp, ast.GeneratorExp, ast.SetComp, ast.DictComp)) and any(x is c for x in ast.walk(l)):
                binders += [(g.target, g.iter) for g in l.generators]
        sizes = {x.id for tg, it in binders if any(isinstance(y, ast.Name) and y.id in ds_lists for y in ast.walk(it)) for x in ast.walk(tg) if isinstance(x, ast.Name)}
        ok = ok and len(c.args) == 1 and isinstance(c.args[0], ast.Name) and c.args[0].id in sizes
    rep.check(ok, rule2, "each domain is enumerated from 0 to its size", gpp.loc(rng[0]) if rng else gpp.loc(), construct=norm(rng[0]) if rng else "", function=gpp.qualname)

    # ---------------------------------------------------------------- (3) users build an un-pruned helper
    rule3 = "C07.3 simulator-uses-unpruned-grounding"
    sim_init = idx.func("engines.sequential_simulator.UPSequentialSimulator.__init__")
    gh = [c for c in walk_no_nested(sim_init.node) if isinstance(c, ast.Call) and call_name(c) == "GrounderHelper"]
    ok = bool(gh) and all({k.arg: norm(k.value) for k in c.keywords}.get("prune_actions") == "False" for c in gh)
    rep.check(ok, rule3, "UPSequentialSimulator: GrounderHelper(prune_actions=False)", sim_init.loc(gh[0]) if gh else sim_init.loc(), construct=norm(gh[0]) if gh else "", detail="" if ok else "the simulator prunes groundings by the declared initial state", function=sim_init.qualname)
    ghi = idx.func(GH + ".__init__")
    store = [a for a in walk_no_nested(ghi.node) if isinstance(a, ast.Assign) and norm(a.targets[0]) == "self._prune_actions"]
    ok = bool(store) and all(norm(a.value) == "prune_actions" for a in store)
    rep.check(ok, rule3, "GrounderHelper stores the prune_actions flag it was given", ghi.loc(store[0]) if store else ghi.loc(), construct=norm(store[0]) if store else "", function=ghi.qualname)

    # ---------------------------------------------------------------- (4) splitting is exhaustive
    rule4 = "C07.4 action-splitting-exhaustive"
    cua = idx.func("engines.compilers.conditional_effects_remover.ConditionalEffectsRemover._create_unconditional_actions")
    rep.note_function(cua.qualname)
    pws = [f for f in walk_no_nested(cua.node) if isinstance(f, ast.For) and isinstance(f.iter, ast.Call) and call_name(f.iter) == "powerset"]
    if len(pws) < 2:
        raise AnalysisError("anchor vanished: powerset loops in _create_unconditional_actions")
    for f in pws:
        arg = norm(f.iter.args[0])
        ok = arg.startswith("range(len(") and arg.endswith("))")
        lst = arg[len("range(len("):-2]
        rep.check(ok, rule4, "variants range over the full powerset of the conditional effects", cua.loc(f), construct=norm(f.iter), function=cua.qualname)
        inner_fors = [g for g in ast.walk(f) if isinstance(g, ast.For) and isinstance(g.iter, ast.Call) and call_name(g.iter) == "enumerate" and norm(g.iter.args[0]) == lst]
        ok2 = bool(inner_fors)
        for g in inner_fors:
            if not (isinstance(g.target, ast.Tuple) and len(g.target.elts) == 2):
                ok2 = False
                continue
            iv = norm(g.target.elts[0])
            ev = norm(g.target.elts[1].elts[0]) if isinstance(g.target.elts[1], ast.Tuple) else norm(g.target.elts[1])
            # the selected indexes: the powerset element itself or a local copy of it (frozenset(p), set(p), …)
            sel = {norm(f.target)}
            for a_ in ast.walk(f):
                if isinstance(a_, ast.Assign) and len(a_.targets) == 1 and isinstance(a_.targets[0], ast.Name) and isinstance(a_.value, ast.Call) and call_name(a_.value) in ("frozenset", "set", "tuple", "list") and len(a_.value.args) == 1 and norm(a_.value.args[0]) == norm(f.target):
                    if sum(1 for y in ast.walk(f) if isinstance(y, ast.Name) and isinstance(y.ctx, ast.Store) and y.id == a_.targets[0].id) == 1:
                        sel.add(a_.targets[0].id)
            ifs = [s for s in g.body if isinstance(s, ast.If) and any(norm(s.test) == f"{iv} in {x_}" for x_ in sel)]
            ok2 = ok2 and len(ifs) == 1
            for s in ifs:
                pos = [c for x in s.body for c in ast.walk(x) if isinstance(c, ast.Call) and call_name(c) in ("add_precondition", "add_condition") and norm(c.args[-1]) == f"{ev}.condition"]
                neg = [c for x in s.orelse for c in ast.walk(x) if isinstance(c, ast.Call) and call_name(c) in ("add_precondition", "add_condition") and isinstance(c.args[-1], ast.Call) and call_name(c.args[-1]) == "Not" and norm(c.args[-1].args[0]) == f"{ev}.condition"]
                ok2 = ok2 and len(pos) == 1 and len(neg) == 1
        rep.check(ok2, rule4, "each conditional effect contributes its condition (selected) or its negation (not selected)", cua.loc(f), construct=f"for i, e in enumerate({lst}): if i in p: +cond else: +Not(cond)", detail="" if ok2 else "a variant no longer requires the condition / its negation: variants overlap or leave states uncovered", function=cua.qualname)
    pw = idx.func("utils.powerset")
    rep.note_function(pw.qualname)
    rngs = [c for c in walk_no_nested(pw.node) if isinstance(c, ast.Call) and call_name(c) == "range"]
    pools = {norm(a.targets[0]) for a in walk_no_nested(pw.node) if isinstance(a, ast.Assign) and isinstance(a.value, ast.Call) and call_name(a.value) in ("list", "tuple") and a.value.args and norm(a.value.args[0]) in pw.params()} | set(pw.params())
    combs = {norm(c.args[0]) for c in ast.walk(pw.node) if isinstance(c, ast.Call) and call_name(c) == "combinations" and c.args}
    ok = bool(rngs) and bool(combs) and all(len(c.args) == 1 and isinstance(c.args[0], ast.BinOp) and isinstance(c.args[0].op, ast.Add) and norm(c.args[0].right) == "1" and isinstance(c.args[0].left, ast.Call) and call_name(c.args[0].left) == "len" and norm(c.args[0].left.args[0]) in (pools & combs) for c in rngs)
    rep.check(ok, "C07.5 powerset-complete", "powerset enumerates subsets of every size 0..len(s)", pw.loc(), construct=norm(rngs[0]) if rngs else "", detail="" if ok else "powerset omits subsets of some size: the all-effects or no-effects variant is never generated", function=pw.qualname)
    # DisjunctiveConditionsRemover: one action per disjunct
    dcr = idx.cls("engines.compilers.disjunctive_conditions_remover.DisjunctiveConditionsRemover")
    cnd = dcr.methods.get("_create_non_disjunctive_actions")
    if cnd is None:
        raise AnalysisError("anchor vanished: DisjunctiveConditionsRemover._create_non_disjunctive_actions")
    rep.note_function(cnd.qualname)
    dn = [c for c in walk_no_nested(cnd.node) if isinstance(c, ast.Call) and call_name(c) == "get_dnf_expression"]
    rep.check(bool(dn), rule4, "DisjunctiveConditionsRemover splits on the DNF of the conjoined conditions", cnd.loc(dn[0]) if dn else cnd.loc(), construct=norm(dn[0])[:100] if dn else "", function=cnd.qualname)
    ifs = [s for s in walk_no_nested(cnd.node) if isinstance(s, ast.If) and norm(s.test).endswith(".is_or()")]
    ok = bool(ifs)
    for s in ifs:
        v = norm(s.test)[: -len(".is_or()")]
        uses_args = [y for x in s.body for y in ast.walk(x) if isinstance(y, ast.Attribute) and norm(y) == f"{v}.args"]
        uses_single = [y for x in s.orelse for y in ast.walk(x) if isinstance(y, ast.Name) and y.id == v]
        ok = ok and bool(uses_args) and bool(uses_single)
    prod = [c for c in walk_no_nested(cnd.node) if isinstance(c, ast.Call) and call_name(c) == "product" and c.args and isinstance(c.args[0], ast.Starred)]
    rep.check(bool(prod), rule4, "durative actions: one variant per element of the product of the per-interval disjuncts", cnd.loc(prod[0]) if prod else cnd.loc(), construct=norm(prod[0]) if prod else "", function=cnd.qualname)
    rep.check(ok, rule4, "one action per disjunct (loop over the Or's args) and one for a non-disjunctive condition", cnd.loc(ifs[0]) if ifs else cnd.loc(), construct=norm(ifs[0].test) if ifs else "no `.is_or()` split", detail="" if ok else "a disjunct of the DNF gets no action variant", function=cnd.qualname)
