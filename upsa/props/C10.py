"""C10 — the problem kind reports every feature the problem uses (structural clauses).

Decides: (1) must-visit (T1 with a sink): for every (entity, expression-bearing field) row of
tables/kind_visits.json the kind computation passes a value derived from that field to the expression / effect
/ type updater (def-use closure of the sink's argument); (2) T7: every non-deprecated feature of FEATURES has
at least one set_* call site inside a kind computation (a feature nobody can ever report is unreported for
every problem that uses it); (3) operator -> feature association of the condition features: each setter of a
CONDITIONS_KIND feature in update_problem_kind_expression is guarded by a membership test of the matching
OperatorKind, and all six features are set there (and in the multi-agent sibling, the five it supports);
(4) the same expression updater is used for Problem, and MultiAgentProblem's own updater agrees with it on the
operator table (sibling agreement).
Does not decide: the kind of a particular problem.
"""
from __future__ import annotations

import ast
import json
import os
from typing import Dict, List, Set, Tuple

from ..dataflow import DefUse
from ..index import AnalysisError, Index, call_name, norm, walk_no_nested
from ..kinddsl import KindTables
from ..report import VERIF, Report
from ..rules import cfg_nodes_with_call, cfg_of, guards_dominating

OP_FEATURE = {
    "EQUALITIES": {"EQUALS"},
    "NEGATIVE_CONDITIONS": {"NOT", "IMPLIES", "IFF"},  # a -> b is (not a) or b; a <-> b is (a and b) or (not a and not b)
    "DISJUNCTIVE_CONDITIONS": {"OR", "IMPLIES", "IFF"},
    "EXISTENTIAL_CONDITIONS": {"EXISTS"},
    "UNIVERSAL_CONDITIONS": {"FORALL"},
    "INTERPRETED_FUNCTIONS_IN_CONDITIONS": {"INTERPRETED_FUNCTION_EXP"},
}


def operator_table(f) -> Dict[str, Set[str]]:
    """feature -> OperatorKind members whose presence sets it, read off the guards of f."""
    cfg = cfg_of(f)
    out: Dict[str, Set[str]] = {}
    for n, c in cfg_nodes_with_call(cfg, "set_conditions_kind"):
        if not (c.args and isinstance(c.args[0], ast.Constant)):
            continue
        feat = c.args[0].value
        ops: Set[str] = set()
        for t, outcome in guards_dominating(cfg, n):
            if not outcome:
                continue
            for x in ast.walk(t.ast):
                if isinstance(x, ast.Compare) and isinstance(x.ops[0], ast.In) and isinstance(x.left, ast.Attribute) and norm(x.left.value).endswith("OperatorKind"):
                    ops.add(x.left.attr)
        out.setdefault(feat, set()).update(ops)
    return out


def run(idx: Index, rep: Report, tier: str) -> None:
    rep.explanation = __doc__.strip()
    tables = KindTables(idx)
    # ---------------------------------------------------------------- (1) must-visit
    rule1 = "C10.1 T1 must-visit"
    with open(os.path.join(VERIF, "tables", "kind_visits.json")) as fh:
        rows = json.load(fh)["rows"]
    dus: Dict[str, Tuple] = {}
    for row in rows:
        f = idx.func(row["function"])
        rep.note_function(f.qualname)
        if f.qualname not in dus:
            cfg = cfg_of(f)
            dus[f.qualname] = (cfg, DefUse(cfg))
        cfg, du = dus[f.qualname]
        src = row["source"]
        hit = None
        for sink in row["sinks"]:
            for n, c in cfg_nodes_with_call(cfg, sink):
                for a in list(c.args) + [k.value for k in c.keywords]:
                    chains = du.expanded_chains(a, n)
                    if row.get("param"):
                        ok = any(ch[0] == src for ch in chains)
                    else:
                        ok = any(src in ch for ch in chains)
                    if ok:
                        hit = (c, sink)
                        break
                if hit:
                    break
            if hit:
                break
        rep.check(
            hit is not None,
            rule1,
            f"{f.short}: .{src} flows into {'/'.join(row['sinks'])}",
            f.loc(hit[0]) if hit else f.loc(),
            construct=norm(hit[0])[:100] if hit else f"{f.short} never passes .{src} to {'/'.join(row['sinks'])}",
            detail="" if hit else f"{row['why']}: features used only there (negation, disjunction, quantifiers, equalities, conditional/forall/increase effects, interpreted functions) are missing from the computed kind",
            function=f.qualname,
        )
    rep.count("visit_rows", len(rows))
    rep.require_min(rule1, "visit_rows", 35)

    # ---------------------------------------------------------------- (2) every feature has a setter site in a kind computation
    rule2 = "C10.2 T7 feature-has-a-setter"
    model_setters: Set[str] = set()
    n_sites = 0
    for f in idx.all_funcs():
        if not f.module.name.startswith("unified_planning.model") or f.module.name.endswith("problem_kind"):
            continue
        for c in walk_no_nested(f.node):
            if isinstance(c, ast.Call) and isinstance(c.func, ast.Attribute) and c.func.attr.startswith("set_") and c.func.attr in tables.methods and c.args and isinstance(c.args[0], ast.Constant):
                model_setters.add(c.args[0].value)
                n_sites += 1
    rep.count("model_setter_sites", n_sites)
    deprecated = tables.deprecated()
    # features that describe engine capabilities or classes set by a class-specific argument, not by syntax
    by_argument = {"ACTION_BASED", "HIERARCHICAL", "ACTION_BASED_MULTI_AGENT", "SCHEDULING"}
    for cat, feats in tables.features.items():
        for feat in feats:
            if feat in deprecated:
                continue
            if feat in by_argument:
                ok = any(isinstance(c, ast.Constant) and c.value == feat for m in idx.modules.values() if m.name.startswith("unified_planning.model") and not m.name.endswith("problem_kind") for c in ast.walk(m.tree))
                rep.check(ok, rule2, f"feature {feat} is assigned by some problem class", "unified_planning/model/problem_kind.py:1", construct=feat, function="unified_planning.model")
                continue
            ok = feat in model_setters
            rep.check(ok, rule2, f"feature {feat} has a set_{cat.lower()} site in a kind computation", "unified_planning/model/problem_kind.py:1", construct=feat, detail="" if ok else f"no kind computation under unified_planning/model ever sets {feat}: problems using it are reported without it", function="unified_planning.model")
    rep.require_min(rule2, "model_setter_sites", 60)

    # ---------------------------------------------------------------- (3) operator -> feature
    rule3 = "C10.3 operator-feature-table"
    upe = idx.func("model.problem._KindFactory.update_problem_kind_expression")
    rep.note_function(upe.qualname)
    tab = operator_table(upe)
    for feat, ops in OP_FEATURE.items():
        have = tab.get(feat)
        if have is None:
            rep.bad(rule3, f"update_problem_kind_expression sets {feat}", upe.loc(), construct=f"no set_conditions_kind(\"{feat}\")", detail=f"conditions using {sorted(ops)} are not reported", function=upe.qualname)
        elif not have:
            rep.inconclusive(rule3, f"{feat}: guard not recognised", upe.loc(), function=upe.qualname)
        else:
            missing = ops - have
            extra = have - ops
            ok = not missing
            rep.check(ok, rule3, f"{feat} is set for operators {sorted(ops)}", upe.loc(), construct=f"guards: {sorted(have)}", detail="" if ok else f"an expression containing {sorted(missing)} does not set {feat}", function=upe.qualname)
    # the extractor result is what the guards test
    tested = {norm(x.comparators[0]) for x in walk_no_nested(upe.node) if isinstance(x, ast.Compare) and isinstance(x.ops[0], ast.In) and isinstance(x.left, ast.Attribute) and norm(x.left.value).endswith("OperatorKind") and isinstance(x.comparators[0], ast.Name)}
    ops_defs = [a for a in walk_no_nested(upe.node) if isinstance(a, ast.Assign) and norm(a.targets[0]) in tested]
    ok_all_defined = tested <= {norm(a.targets[0]) for a in ops_defs}
    ok = bool(ops_defs) and ok_all_defined and all(isinstance(a.value, ast.Call) and call_name(a.value) == "get" and "operators_extractor" in norm(a.value.func.value) and norm(a.value.args[0]) == "exp" for a in ops_defs)
    rep.check(ok, rule3, "guards test the operators of the visited expression", upe.loc(ops_defs[0]) if ops_defs else upe.loc(), construct=norm(ops_defs[0]) if ops_defs else "", function=upe.qualname)

    # ---------------------------------------------------------------- (4) sibling agreement with the multi-agent updater
    rule4 = "C10.4 T17 multi-agent-updater-agrees"
    mac = idx.func("model.multi_agent.ma_problem.MultiAgentProblem._update_problem_kind_condition")
    rep.note_function(mac.qualname)
    mtab = operator_table(mac)
    for feat, ops in OP_FEATURE.items():
        if feat == "INTERPRETED_FUNCTIONS_IN_CONDITIONS":
            continue  # interpreted functions are not part of the multi-agent model
        have = mtab.get(feat, set())
        missing = ops - have
        rep.check(not missing, rule4, f"multi-agent: {feat} set for {sorted(ops)}", mac.loc(), construct=f"guards: {sorted(have)}", detail="" if not missing else f"the multi-agent kind computation does not report {feat} for {sorted(missing)} although Problem's does", function=mac.qualname)
