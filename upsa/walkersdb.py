"""Handler resolution for the expression walkers: which walk_* function handles which OperatorKind."""
from __future__ import annotations

import ast
from typing import Dict, List, Optional, Set

from .index import AnalysisError, ClassInfo, FuncInfo, Index, norm


class OperatorSets:
    def __init__(self, idx: Index):
        self.mod = idx.module("model.operators")
        ok = self.mod.classes.get("OperatorKind")
        if ok is None:
            raise AnalysisError("anchor vanished: OperatorKind")
        self.members: List[str] = [t.id for s in ok.node.body if isinstance(s, ast.Assign) for t in s.targets if isinstance(t, ast.Name)]
        if len(self.members) < 20:
            raise AnalysisError("anchor vanished: OperatorKind has too few members")
        self.consts: Dict[str, Set[str]] = {}
        for name, val in self.mod.assigns.items():
            s = self.eval(val)
            if s is not None:
                self.consts[name] = s

    def eval(self, e: ast.AST) -> Optional[Set[str]]:
        """Evaluate an expression denoting a set of OperatorKind members; None if not evaluable."""
        if isinstance(e, ast.Attribute):
            if e.attr in self.members and norm(e.value).split(".")[-1] == "OperatorKind":
                return {e.attr}
            if e.attr in self.consts:
                return set(self.consts[e.attr])
            if e.attr == "OperatorKind":
                return set(self.members)
            return None
        if isinstance(e, ast.Name):
            if e.id == "OperatorKind":
                return set(self.members)
            if e.id in self.consts:
                return set(self.consts[e.id])
            return None
        if isinstance(e, ast.Call) and isinstance(e.func, ast.Name) and e.func.id in ("frozenset", "set", "list", "tuple", "iter"):
            if not e.args:
                return set()
            return self.eval(e.args[0])
        if isinstance(e, ast.Call) and isinstance(e.func, ast.Attribute) and e.func.attr in ("union", "difference", "intersection") and len(e.args) == 1:
            l, r = self.eval(e.func.value), self.eval(e.args[0])
            if l is None or r is None:
                return None
            return {"union": l | r, "difference": l - r, "intersection": l & r}[e.func.attr]
        if isinstance(e, (ast.List, ast.Tuple, ast.Set)):
            out: Set[str] = set()
            for x in e.elts:
                s = self.eval(x)
                if s is None:
                    return None
                out |= s
            return out
        if isinstance(e, ast.BinOp) and isinstance(e.op, (ast.BitOr, ast.Sub, ast.BitAnd)):
            l, r = self.eval(e.left), self.eval(e.right)
            if l is None or r is None:
                return None
            return l | r if isinstance(e.op, ast.BitOr) else (l - r if isinstance(e.op, ast.Sub) else l & r)
        return None


class WalkerDB:
    def __init__(self, idx: Index):
        self.idx = idx
        self.ops = OperatorSets(idx)
        self._cache: Dict[str, Dict[str, FuncInfo]] = {}
        self.unevaluable: List[str] = []

    def own_handlers(self, ci: ClassInfo) -> Dict[str, FuncInfo]:
        out: Dict[str, FuncInfo] = {}
        # plain names first, decorators afterwards (set_handler runs after class creation)
        for m in ci.methods.values():
            if m.name.startswith("walk_"):
                opn = m.name[len("walk_"):].upper()
                if opn in self.ops.members:
                    out[opn] = m
        for m in ci.methods.values():
            for d in m.node.decorator_list:
                if isinstance(d, ast.Call) and norm(d.func).split(".")[-1] == "handles":
                    args = d.args
                    for a in args:
                        s = self.ops.eval(a)
                        if s is None:
                            self.unevaluable.append(f"{m.qualname}: @{norm(d)}")
                            continue
                        for opn in s:
                            out[opn] = m
        return out

    def handlers(self, ci: ClassInfo) -> Dict[str, FuncInfo]:
        if ci.qualname in self._cache:
            return self._cache[ci.qualname]
        out: Dict[str, FuncInfo] = {}
        for c in reversed(ci.mro):
            out.update(self.own_handlers(c))
        self._cache[ci.qualname] = out
        return out

    def unhandled(self, ci: ClassInfo) -> List[str]:
        h = self.handlers(ci)
        # Walker registers walk_error for every operator: falling back to it means "not handled"
        return [m for m in self.ops.members if m not in h or h[m].name == "walk_error"]
