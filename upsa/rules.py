"""Reusable rule templates (T1 ... T17 of DESIGN.md) on top of index / cfg / dataflow."""
from __future__ import annotations

import ast
import re
from typing import Callable, Dict, Iterable, List, Optional, Sequence, Set, Tuple

from .cfg import CFG, CFGNode
from .dataflow import DefUse, possibly_unbound_uses, local_names, func_params
from .index import AnalysisError, ClassInfo, FuncInfo, Index, call_name, chain, norm, walk_no_nested
from .report import Report, is_excepted

_CFG_CACHE: Dict[Tuple[int, bool], CFG] = {}


def cfg_of(f: FuncInfo, implicit_raise: bool = False) -> CFG:
    k = (id(f.node), implicit_raise)
    if k not in _CFG_CACHE:
        _CFG_CACHE[k] = CFG(f.node, implicit_raise=implicit_raise)
    return _CFG_CACHE[k]


def path_text(path: Sequence[CFGNode]) -> List[str]:
    out = []
    for n in path:
        if n.ast is None:
            out.append(n.kind)
        else:
            out.append(f"L{n.lineno}:{n.kind}:{norm(n.ast).splitlines()[0][:70]}")
    return out


# ----------------------------------------------------------------------------- T5
def binding_key(f: FuncInfo, v: str) -> Optional[str]:
    """Canonical text of the first statement that binds local `v` (v written @, other locals $1, $2, …): the
    rename-proof way to name a local variable in triage/exceptions.json."""
    import re

    from .report import canonical_construct

    for n in walk_no_nested(f.node):
        tgt = None
        if isinstance(n, ast.Assign):
            tgt, txt = n.targets, norm(n)
        elif isinstance(n, (ast.AugAssign, ast.AnnAssign)):
            tgt, txt = [n.target], norm(n)
        elif isinstance(n, (ast.For, ast.AsyncFor)):
            tgt, txt = [n.target], f"for {norm(n.target)} in {norm(n.iter)}"
        if tgt and any(isinstance(x, ast.Name) and x.id == v for t in tgt for x in ast.walk(t)):
            txt = re.sub(rf"(?<![\.\w]){re.escape(v)}\b", "@", txt)
            return canonical_construct(txt, f.qualname)
    return None


def definite_assignment(rep: Report, rule: str, f: FuncInfo) -> int:
    """No local name may be read on a path on which it was never bound. One obligation per local name."""
    cfg = cfg_of(f)
    rep.note_function(f.qualname)
    res = possibly_unbound_uses(cfg)
    bad: Dict[str, Tuple[CFGNode, List[CFGNode]]] = {}
    for var, node, nm, w in res:
        bad.setdefault(var, (node, w))
    locs = sorted(local_names(f.node) - func_params(f.node))
    n_bad = 0
    for v in locs:
        if v in bad:
            node, w = bad[v]
            reason = is_excepted(rep.prop, rule, f.qualname, v, binding=binding_key(f, v))
            if reason:
                rep.ok(rule, f"{f.short}: {v}", f.loc(node.ast), construct=f"use of {v}", detail="triaged exception: " + reason, function=f.qualname)
                rep.count("triaged_exceptions")
                continue
            n_bad += 1
            rep.bad(
                rule,
                f"{f.short}: local '{v}'",
                f.loc(node.ast),
                construct=f"{v} read in: {norm(node.ast).splitlines()[0]}",
                detail=f"'{v}' may be unbound here: a path from the function entry reaches this use without binding it (UnboundLocalError)",
                function=f.qualname,
                path=path_text(w),
            )
        else:
            rep.ok(rule, f"{f.short}: local '{v}'", f.loc(), function=f.qualname)
    rep.count("locals_checked", len(locs))
    return n_bad


# ----------------------------------------------------------------------------- try regions
def enclosing_trys(fn: ast.AST, target: ast.AST) -> List[ast.Try]:
    """Try statements whose *body* (not handlers/else/finally) contains target, innermost first."""
    out: List[ast.Try] = []

    def visit(node: ast.AST, stack: List[ast.Try]) -> bool:
        if node is target:
            out.extend(reversed(stack))
            return True
        if isinstance(node, ast.Try):
            for s in node.body:
                if visit(s, stack + [node]):
                    return True
            for part in (node.handlers, node.orelse, node.finalbody):
                for s in part:
                    if visit(s, stack):
                        return True
            return False
        for c in ast.iter_child_nodes(node):
            if visit(c, stack):
                return True
        return False

    visit(fn, [])
    return out


def handler_type_names(h: ast.ExceptHandler) -> List[str]:
    if h.type is None:
        return ["BaseException"]
    if isinstance(h.type, ast.Tuple):
        return [norm(e).split(".")[-1] for e in h.type.elts]
    return [norm(h.type).split(".")[-1]]


def exception_caught_by(idx: Index, exc: str, handler_names: Iterable[str]) -> bool:
    names = set(handler_names)
    if exc in names or "Exception" in names or "BaseException" in names:
        return True
    for ci in idx.classes_by_name.get(exc, []):
        if any(c.name in names for c in ci.mro):
            return True
        for ub in ci.unresolved_bases:
            if ub.split(".")[-1] in names:
                return True
    return False


def docstring_raises(f: FuncInfo) -> List[str]:
    doc = ast.get_docstring(f.node) or ""
    return re.findall(r":raises\s+([A-Za-z_][A-Za-z0-9_.]*)\s*:", doc)


# ----------------------------------------------------------------------------- statements / nodes
def stmts_calling(fn: ast.AST, name: str) -> List[ast.Call]:
    return [c for c in walk_no_nested(fn) if isinstance(c, ast.Call) and call_name(c) == name]


def cfg_nodes_with_call(cfg: CFG, name: str) -> List[Tuple[CFGNode, ast.Call]]:
    out = []
    for n in cfg.nodes:
        if n.ast is None:
            continue
        roots: List[ast.AST] = [n.ast]
        if n.kind == "with":
            roots = [i.context_expr for i in n.ast.items]
        elif n.kind == "handler":
            roots = []
        for r in roots:
            for c in walk_no_nested(r):
                if isinstance(c, ast.Call) and call_name(c) == name:
                    out.append((n, c))
    return out


def raising_branch(cfg: CFG, test: CFGNode, label: bool) -> bool:
    """True iff every path leaving `test` through the `label` edge ends in raise_exit (no normal exit,
    no return) without re-joining normal flow."""
    starts = [s for s in cfg.g.successors(test) if _has_label(cfg.g[test][s].get("label"), label)]
    if not starts:
        return False
    seen: Set[CFGNode] = set()
    todo = list(starts)
    while todo:
        n = todo.pop()
        if n in seen:
            continue
        seen.add(n)
        if n is cfg.exit:
            return False
        if n is cfg.raise_exit:
            continue
        succ = list(cfg.g.successors(n))
        if not succ:
            continue
        todo.extend(succ)
    return cfg.raise_exit in seen


def _has_label(lab, want) -> bool:
    if isinstance(lab, tuple):
        return any(l is want for l in lab)
    return lab is want


def guards_dominating(cfg: CFG, node: CFGNode) -> List[Tuple[CFGNode, bool]]:
    """(test node, outcome) pairs such that every path to `node` passes through that test with that outcome
    or the other outcome leaves the function (raise / return)."""
    idom = cfg.dominators()
    out: List[Tuple[CFGNode, bool]] = []
    cur = node
    chain_nodes = []
    while True:
        d = idom.get(cur)
        if d is None or d is cur:
            break
        chain_nodes.append(d)
        cur = d
    for t in chain_nodes:
        if t.kind != "test":
            continue
        for outcome in (True, False):
            # node reachable only via `outcome` edge of t: removing that edge makes node unreachable from t
            others = [s for s in cfg.g.successors(t) if _has_label(cfg.g[t][s].get("label"), not outcome)]
            reach_other = False
            for o in others:
                if o is node or node in cfg.reachable_from(o) :
                    # reachable via the other outcome — but only count paths that do not come back through t
                    if _reach_avoiding(cfg, o, node, t):
                        reach_other = True
                        break
            via = [s for s in cfg.g.successors(t) if _has_label(cfg.g[t][s].get("label"), outcome)]
            if via and not reach_other:
                if any(v is node or _reach_avoiding(cfg, v, node, t) for v in via):
                    out.append((t, outcome))
    return out


def _reach_avoiding(cfg: CFG, src: CFGNode, dst: CFGNode, avoid: CFGNode) -> bool:
    if src is dst:
        return True
    seen = {src}
    todo = [src]
    while todo:
        n = todo.pop()
        for s in cfg.g.successors(n):
            if s is avoid or s in seen:
                continue
            if s is dst:
                return True
            seen.add(s)
            todo.append(s)
    return False


# ----------------------------------------------------------------------------- misc syntactic helpers
def self_attr_stores(fn: ast.AST, recv: str = "self") -> Dict[str, List[ast.AST]]:
    """Attributes of `recv` assigned in fn: self.x = ..., self.x += ..., self.x: T = ..."""
    out: Dict[str, List[ast.AST]] = {}
    for n in walk_no_nested(fn):
        tg: List[ast.AST] = []
        if isinstance(n, ast.Assign):
            tg = list(n.targets)
        elif isinstance(n, ast.AugAssign):
            tg = [n.target]
        elif isinstance(n, ast.AnnAssign) and n.value is not None:
            tg = [n.target]
        for t in tg:
            for e in ast.walk(t) if isinstance(t, (ast.Tuple, ast.List)) else [t]:
                if isinstance(e, ast.Attribute) and isinstance(e.value, ast.Name) and e.value.id == recv:
                    out.setdefault(e.attr, []).append(n)
    return out


MUTATORS = {"append", "add", "update", "setdefault", "pop", "remove", "extend", "clear", "insert", "discard", "popitem", "difference_update", "intersection_update", "sort"}


def attr_mutations(fn: ast.AST, recv: str = "self") -> Dict[str, List[ast.AST]]:
    """Attributes of recv mutated in place in fn: recv.x[k] = v, del recv.x[k], recv.x.append(...), recv.x |= ..."""
    out: Dict[str, List[ast.AST]] = {}

    def root_attr(e: ast.AST) -> Optional[str]:
        # recv.x, recv.x[...], recv.x[...][...]
        while isinstance(e, ast.Subscript):
            e = e.value
        if isinstance(e, ast.Attribute) and isinstance(e.value, ast.Name) and e.value.id == recv:
            return e.attr
        return None

    for n in walk_no_nested(fn):
        if isinstance(n, (ast.Assign, ast.AugAssign, ast.AnnAssign, ast.Delete)):
            tg = n.targets if isinstance(n, (ast.Assign, ast.Delete)) else [n.target]
            for t in tg:
                if isinstance(t, ast.Subscript):
                    a = root_attr(t)
                    if a:
                        out.setdefault(a, []).append(n)
                if isinstance(n, ast.AugAssign) and isinstance(t, ast.Attribute):
                    a = root_attr(t)
                    if a:
                        out.setdefault(a, []).append(n)
        elif isinstance(n, ast.Call) and isinstance(n.func, ast.Attribute) and n.func.attr in MUTATORS:
            a = root_attr(n.func.value)
            if a:
                out.setdefault(a, []).append(n)
    return out


# ----------------------------------------------------------------------------- T4 exception-safe restore
def _is_none(e: Optional[ast.AST]) -> bool:
    return isinstance(e, ast.Constant) and e.value is None


def per_call_fields(f: FuncInfo, recv: str = "self") -> Dict[str, Tuple[List[ast.AST], List[ast.AST]]]:
    """Fields of `recv` that f sets to a non-None value and also resets to None: field -> (sets, resets)."""
    sets: Dict[str, List[ast.AST]] = {}
    resets: Dict[str, List[ast.AST]] = {}
    for n in walk_no_nested(f.node):
        if isinstance(n, (ast.Assign, ast.AnnAssign)):
            tgs = n.targets if isinstance(n, ast.Assign) else [n.target]
            for t in tgs:
                if isinstance(t, ast.Attribute) and isinstance(t.value, ast.Name) and t.value.id == recv and n.value is not None:
                    (resets if _is_none(n.value) else sets).setdefault(t.attr, []).append(n)
    return {k: (sets[k], resets[k]) for k in sets if k in resets}


def exception_safe_restore(rep: Report, rule: str, f: FuncInfo, min_fields: int = 1) -> int:
    """T4: a field set before a call that may raise and reset to None afterwards must also be reset when the
    call raises (try/finally or except: reset; raise). One obligation per (field, set site)."""
    cfg = cfg_of(f, implicit_raise=True)
    rep.note_function(f.qualname)
    fields = per_call_fields(f)
    n = 0
    for fld, (sets, resets) in sorted(fields.items()):
        reset_nodes = {cn for r in resets for cn in cfg.nodes_for(r)}
        for s in sets:
            for sn in cfg.nodes_for(s):
                n += 1
                p = feasible_path_exc(cfg, sn, reset_nodes)
                if p is None:
                    rep.ok(rule, f"{f.short}: self.{fld} restored on every exit", f.loc(s), construct=norm(s).splitlines()[0][:100], function=f.qualname)
                else:
                    raiser = None
                    for a, b in zip(p, p[1:]):
                        if _has_label(cfg.g[a][b].get("label"), "exc"):
                            raiser = a
                    rep.bad(
                        rule,
                        f"{f.short}: self.{fld} restored on every exit",
                        f.loc(raiser.ast if raiser is not None and raiser.ast is not None else s),
                        construct=f"self.{fld} not reset when `{norm(raiser.ast).splitlines()[0][:80] if raiser is not None and raiser.ast is not None else '?'}` raises",
                        detail=f"self.{fld} is set before a call that may raise and reset to None only on the normal path: after an exception the object keeps the per-call value and the next call trips on it",
                        function=f.qualname,
                        path=path_text(p),
                    )
    rep.count("per_call_fields", len(fields))
    if len(fields) < min_fields:
        raise AnalysisError(f"{rule}: {f.qualname} has {len(fields)} set/reset fields, expected at least {min_fields}")
    return n


def feasible_path_exc(cfg: CFG, src: CFGNode, avoid: Set[CFGNode]) -> Optional[List[CFGNode]]:
    """A path src -> raise_exit avoiding `avoid`."""
    from .dataflow import feasible_path

    return feasible_path(cfg, src, cfg.raise_exit, avoid=avoid, correlated=False)


# ----------------------------------------------------------------------------- T10 exact arithmetic
def _is_fraction_ctor(e: ast.AST) -> bool:
    return isinstance(e, ast.Call) and norm(e.func).split(".")[-1] == "Fraction"


def _provably_fraction(e: ast.AST, cfg: CFG, node: CFGNode, rd, depth: int = 4) -> bool:
    if _is_fraction_ctor(e):
        return True
    if isinstance(e, ast.BinOp) and isinstance(e.op, (ast.Add, ast.Sub, ast.Mult, ast.Div)):
        return _provably_fraction(e.left, cfg, node, rd, depth) or _provably_fraction(e.right, cfg, node, rd, depth)
    if isinstance(e, ast.UnaryOp):
        return _provably_fraction(e.operand, cfg, node, rd, depth)
    if isinstance(e, ast.Name) and depth > 0:
        from .dataflow import def_value

        defs = rd.get(node, {}).get(e.id, set())
        if not defs:
            return False
        if cfg.entry in defs:
            # a parameter: annotated Fraction?
            for a in cfg.fn.args.args + cfg.fn.args.kwonlyargs:
                if a.arg == e.id and a.annotation is not None and "Fraction" in norm(a.annotation) and "int" not in norm(a.annotation) and "Union" not in norm(a.annotation):
                    return len(defs) == 1
            return False
        for d in defs:
            v = def_value(d, e.id)
            if v is None or isinstance(v, ast.AugAssign) or not _provably_fraction(v, cfg, d, rd, depth - 1):
                return False
        return True
    return False


def exact_arithmetic(rep: Report, rule: str, funcs: Iterable[FuncInfo]) -> int:
    """T10: no true division unless an operand is provably a Fraction; no float() except the inf sentinels;
    no int(a / b). One obligation per arithmetic site."""
    from .dataflow import reaching_defs

    n = 0
    for f in funcs:
        sites = [x for x in walk_no_nested(f.node) if (isinstance(x, ast.BinOp) and isinstance(x.op, ast.Div)) or (isinstance(x, ast.AugAssign) and isinstance(x.op, ast.Div)) or (isinstance(x, ast.Call) and isinstance(x.func, ast.Name) and x.func.id == "float")]
        if not sites:
            continue
        rep.note_function(f.qualname)
        cfg = cfg_of(f)
        rd = reaching_defs(cfg)
        ordinal: Dict[str, int] = {}
        for x in sites:
            n += 1
            txt = norm(x)
            ordinal[txt] = ordinal.get(txt, 0) + 1
            tag = f" #{ordinal[txt]}" if ordinal[txt] > 1 else ""
            if isinstance(x, ast.Call):
                ok = len(x.args) == 1 and isinstance(x.args[0], ast.Constant) and isinstance(x.args[0].value, str) and x.args[0].value.strip().lstrip("+-").lower() in ("inf", "infinity")
                in_str = f.name in ("__str__", "__repr__")
                rep.check(ok or in_str, rule, f"{f.short}: float(){tag} only as an infinity sentinel", f.loc(x), construct=txt + tag, detail="" if (ok or in_str) else "a value is converted to a binary float: rationals / large integers lose precision", function=f.qualname)
                continue
            nodes = cfg.node_containing(x)
            node = nodes[0] if nodes else cfg.entry
            l, r = (x.left, x.right) if isinstance(x, ast.BinOp) else (x.target, x.value)
            ok = _provably_fraction(l, cfg, node, rd) or _provably_fraction(r, cfg, node, rd)
            rep.check(ok, rule, f"{f.short}: division{tag} is exact (an operand is provably a Fraction)", f.loc(x), construct=txt + tag, detail="" if ok else "true division of values that can both be ints yields a binary float: results are wrong above 2**53 and rationals such as 1/3 are rounded", function=f.qualname)
    return n


# ----------------------------------------------------------------------------- T8 clone completeness
def class_state_fields(ci: ClassInfo) -> Tuple[Dict[str, FuncInfo], Dict[str, List[FuncInfo]]]:
    """(fields assigned by an __init__ of the MRO, fields mutated by some other method of the MRO)."""
    init_fields: Dict[str, FuncInfo] = {}
    mutated: Dict[str, List[FuncInfo]] = {}
    for k in ci.mro:
        for key, m in k.methods.items():
            if m.name == "__init__":
                for f in self_attr_stores(m.node):
                    init_fields.setdefault(f, m)
            elif m.name in ("clone", "_clone_to", "__eq__", "__hash__", "__repr__", "__str__", "__deepcopy__", "__copy__", "__setstate__"):
                continue
            else:
                for f in list(self_attr_stores(m.node)) + list(attr_mutations(m.node)):
                    mutated.setdefault(f, []).append(m)
    return init_fields, mutated


def _setter_fields(ci: ClassInfo, prop: str) -> Set[str]:
    m = None
    for k in ci.mro:
        if prop + ".setter" in k.methods:
            m = k.methods[prop + ".setter"]
            break
    if m is None:
        return set()
    return set(self_attr_stores(m.node)) | set(attr_mutations(m.node))


def _stores_through(fn: ast.AST, recv: str) -> Dict[str, List[ast.AST]]:
    out = dict(self_attr_stores(fn, recv))
    for k, v in attr_mutations(fn, recv).items():
        out.setdefault(k, []).extend(v)
    return out


def clone_coverage(idx: Index, ci: ClassInfo, clone: FuncInfo) -> Tuple[Dict[str, ast.AST], Dict[str, ast.AST], Optional[str]]:
    """(covered fields -> a covering node, aliased fields -> node, name of the clone variable)."""
    covered: Dict[str, ast.AST] = {}
    aliased: Dict[str, ast.AST] = {}
    var = None
    ctor_call = None
    for n in walk_no_nested(clone.node):
        if isinstance(n, ast.Assign) and len(n.targets) == 1 and isinstance(n.targets[0], ast.Name) and isinstance(n.value, ast.Call):
            fn = norm(n.value.func)
            obj = idx.resolve_dotted(clone.module, fn) if fn.replace(".", "").replace("_", "").isalnum() else None
            if (isinstance(obj, ClassInfo) and (obj in ci.mro or ci in obj.mro)) or fn in ("type(self)", "self.__class__"):
                var = n.targets[0].id
                ctor_call = n.value
                break
    if var is None:
        for n in walk_no_nested(clone.node):
            if isinstance(n, ast.Return) and isinstance(n.value, ast.Call):
                fn = norm(n.value.func)
                obj = idx.resolve_dotted(clone.module, fn) if fn.replace(".", "").replace("_", "").isalnum() else None
                if (isinstance(obj, ClassInfo) and (obj in ci.mro or ci in obj.mro)) or fn in ("type(self)", "self.__class__"):
                    ctor_call = n.value
    if ctor_call is not None:
        for a in list(ctor_call.args) + [k.value for k in ctor_call.keywords]:
            for x in ast.walk(a):
                if isinstance(x, ast.Attribute) and isinstance(x.value, ast.Name) and x.value.id == "self":
                    covered.setdefault(x.attr, ctor_call)
                    for f in _setter_fields(ci, x.attr) or []:
                        covered.setdefault(f, ctor_call)
                    # property `self.name` reads `_name`
                    covered.setdefault("_" + x.attr, ctor_call)

    def absorb(fn: FuncInfo, recv: str, depth: int) -> None:
        for f, nodes in _stores_through(fn.node, recv).items():
            covered.setdefault(f, nodes[0])
            for sf in _setter_fields(ci, f):
                covered.setdefault(sf, nodes[0])
            for nd in nodes:
                if isinstance(nd, ast.Assign) and isinstance(nd.value, ast.Attribute) and isinstance(nd.value.value, ast.Name) and nd.value.value.id == "self" and nd.value.attr == f:
                    aliased.setdefault(f, nd)
        if depth <= 0:
            return
        for c in walk_no_nested(fn.node):
            if not isinstance(c, ast.Call) or not isinstance(c.func, ast.Attribute):
                continue
            # X._clone_to(self, recv, ...) / self._clone_to(recv) / super()._clone_to(recv)
            args = [norm(a) for a in c.args]
            if c.func.attr == "_clone_to" and recv in args:
                base = c.func.value
                target = None
                if isinstance(base, ast.Name) and base.id == "self":
                    target = ci.lookup("_clone_to")
                elif isinstance(base, ast.Call) and norm(base.func) == "super":
                    for k in (fn.cls.mro[1:] if fn.cls else []):
                        if "_clone_to" in k.methods:
                            target = k.methods["_clone_to"]
                            break
                else:
                    obj = idx.resolve_dotted(fn.module, norm(base))
                    if isinstance(obj, ClassInfo):
                        target = obj.lookup("_clone_to")
                if target is not None:
                    params = [p for p in target.params() if p != "self"]
                    other = params[0] if params else "other"
                    absorb(target, other, depth - 1)
            elif isinstance(c.func.value, ast.Name) and c.func.value.id == recv:
                m = ci.lookup(c.func.attr)
                if m is not None and m.name not in ("clone",):
                    for f in _stores_through(m.node, "self"):
                        covered.setdefault(f, c)
            elif isinstance(c.func.value, ast.Name) and c.func.value.id == "self" and c.func.attr.startswith("_") and recv in args:
                # any other private helper of the class that is handed the copy: self._copy_parts_to(new)
                target = ci.lookup(c.func.attr)
                if target is not None and target.name not in ("clone", "__init__"):
                    params = [p for p in target.params() if p != "self"]
                    pos = args.index(recv)
                    if pos < len(params):
                        absorb(target, params[pos], depth - 1)

    if var is not None:
        absorb(clone, var, 3)
    return covered, aliased, var


def clone_completeness(rep: Report, rule: str, idx: Index, ci: ClassInfo, min_fields: int = 0) -> int:
    clone = ci.methods.get("clone")
    if clone is None:
        return 0
    rep.note_function(clone.qualname)
    init_fields, mutated = class_state_fields(ci)
    state = sorted(f for f in init_fields if f in mutated)
    covered, aliased, var = clone_coverage(idx, ci, clone)
    if var is None and not covered:
        rep.inconclusive(rule, f"{ci.name}.clone: construction idiom not recognised", clone.loc(), function=clone.qualname)
        return 0
    n = 0
    for f in state:
        reason = is_excepted(rep.prop, rule, ci.qualname, f)
        if reason:
            rep.ok(rule, f"{ci.name}.clone carries {f}", clone.loc(), construct=f, detail="triaged exception: " + reason, function=clone.qualname)
            rep.count("triaged_exceptions")
            continue
        n += 1
        ok = f in covered
        rep.check(
            ok,
            rule,
            f"{ci.name}.clone carries state field {f}",
            clone.loc(covered[f]) if ok else clone.loc(),
            construct=f"{ci.name}.clone: {f}" + ("" if ok else " is never assigned on the clone"),
            detail="" if ok else f"{f} is initialised by {init_fields[f].short} and changed by {mutated[f][0].short}, but neither {ci.name}.clone nor the _clone_to helpers it calls assign it on the copy: the clone starts from the constructor's default instead of the original's value",
            function=clone.qualname,
        )
    for f, nd in sorted(aliased.items()):
        if f in mutated and any(f in attr_mutations(m.node) for m in mutated[f]):
            n += 1
            rep.bad(rule, f"{ci.name}.clone copies (does not alias) the container {f}", clone.loc(nd), construct=norm(nd), detail=f"{f} is mutated in place by {mutated[f][0].short}; sharing the object makes edits of one problem visible in the other", function=clone.qualname)
    return n


# ----------------------------------------------------------------------------- T9 eq / hash agreement
def _self_attrs(fn: ast.AST, recv: str = "self") -> Set[str]:
    return {n.attr for n in walk_no_nested(fn) if isinstance(n, ast.Attribute) and isinstance(n.value, ast.Name) and n.value.id == recv}


def eq_hash_agreement(rep: Report, rule: str, ci: ClassInfo) -> int:
    """attributes hashed are attributes compared; __eq__ can return True; every dict compared by iterating one
    side is also compared from the other side (length test or reverse loop)."""
    eq = ci.methods.get("__eq__")
    hs = ci.methods.get("__hash__")
    n = 0
    if eq is None:
        return 0
    rep.note_function(eq.qualname)
    oth = [p for p in eq.params() if p != "self"]
    oth = oth[0] if oth else "oth"
    if hs is not None:
        rep.note_function(hs.qualname)
        ha, ea = _self_attrs(hs.node), _self_attrs(eq.node)
        # attributes read through helper methods of the class called from __eq__ / __hash__
        for fn, acc in ((hs, ha), (eq, ea)):
            for c in walk_no_nested(fn.node):
                if isinstance(c, ast.Call) and isinstance(c.func, ast.Attribute) and isinstance(c.func.value, ast.Name) and c.func.value.id == "self":
                    m = ci.lookup(c.func.attr)
                    if m is not None:
                        acc |= _self_attrs(m.node)
        # a property `x` that caches into `_x` counts as the same datum
        ea |= {"_" + a for a in ea if ci.lookup(a) is not None}
        extra = sorted(a for a in ha - ea if not callable_attr(ci, a) and a != "_hash")
        n += 1
        rep.check(not extra, rule, f"{ci.name}: everything hashed is compared by __eq__", hs.loc(), construct=f"hashed {sorted(ha)}; compared {sorted(ea)}", detail="" if not extra else f"__hash__ reads {extra} which __eq__ ignores: objects that compare equal can hash differently", function=hs.qualname)
    rets = [r for r in walk_no_nested(eq.node) if isinstance(r, ast.Return) and r.value is not None]
    can_true = any(not (isinstance(r.value, ast.Constant) and r.value.value is False) and not (isinstance(r.value, ast.Name) and r.value.id == "NotImplemented") for r in rets)
    n += 1
    rep.check(can_true, rule, f"{ci.name}.__eq__ has a path returning True", eq.loc(), construct="; ".join(sorted({norm(r.value)[:30] for r in rets})), detail="" if can_true else "no object is ever equal to another (not even to itself)", function=eq.qualname)
    # one-directional dict comparison
    for loop in [l for l in walk_no_nested(eq.node) if isinstance(l, ast.For)]:
        it = loop.iter
        if isinstance(it, ast.Call) and isinstance(it.func, ast.Attribute) and it.func.attr == "items" and isinstance(it.func.value, ast.Attribute) and isinstance(it.func.value.value, ast.Name) and it.func.value.value.id == "self":
            fld = it.func.value.attr
            gets = [c for c in ast.walk(loop) if isinstance(c, ast.Call) and isinstance(c.func, ast.Attribute) and c.func.attr == "get" and norm(c.func.value) == f"{oth}.{fld}"]
            if not gets:
                continue
            n += 1
            txt = norm(eq.node)
            both = f"len(self.{fld}) != len({oth}.{fld})" in txt or f"len(self.{fld}) == len({oth}.{fld})" in txt or f"for {norm(loop.target)} in {oth}.{fld}.items()" in txt or f"self.{fld}.keys() == {oth}.{fld}.keys()" in txt or f"set(self.{fld}) == set({oth}.{fld})" in txt
            rep.check(both, rule, f"{ci.name}.__eq__ compares {fld} in both directions", eq.loc(loop), construct=f"for ... in self.{fld}.items(): {oth}.{fld}.get(...)" + ("" if both else f" without a length / reverse test on {fld}"), detail="" if both else f"an object whose {fld} is a strict subset of the other's compares equal one way round only (a == b but b != a) and the two hash differently", function=eq.qualname)
    return n


def callable_attr(ci: ClassInfo, name: str) -> bool:
    return ci.lookup(name) is not None


# ----------------------------------------------------------------------------- T3 validate-before-commit
def writes_then_raises(cfg: CFG, write: CFGNode, explicit_only: bool = True) -> Optional[List[CFGNode]]:
    """A path on which `write` executes and an exception then leaves the function (None if there is none).
    With explicit_only, only `raise` statements count (the CFG must be built without implicit raises)."""
    from .dataflow import feasible_path

    for succ in cfg.g.successors(write):
        if _has_label(cfg.g[write][succ].get("label"), "exc"):
            continue
        if succ is cfg.raise_exit:
            continue
        p = feasible_path(cfg, succ, cfg.raise_exit)
        if p is not None:
            return [write] + p
    return None


def tracked_writes(cfg: CFG, recv_fields: Set[str], recv: str = "self", params: Set[str] = frozenset()) -> List[Tuple[CFGNode, str]]:
    """CFG nodes that mutate recv.<field> (store, subscript store, mutator call) or mutate a container
    parameter in place."""
    out = []
    for n in cfg.nodes:
        if n.ast is None or n.kind not in ("stmt",):
            continue
        for f in _stores_through(n.ast, recv):
            if f in recv_fields:
                out.append((n, f"{recv}.{f}"))
        for x in ast.walk(n.ast):
            if isinstance(x, ast.Assign):
                for t in x.targets:
                    if isinstance(t, ast.Subscript) and isinstance(t.value, ast.Name) and t.value.id in params:
                        out.append((n, t.value.id))
            elif isinstance(x, ast.Call) and isinstance(x.func, ast.Attribute) and x.func.attr in MUTATORS and isinstance(x.func.value, ast.Name) and x.func.value.id in params:
                out.append((n, x.func.value.id))
    return out
