"""Command line: /verif/check <ID> [--tier quick|thorough] [--replay PATH] [--repo PATH]"""
from __future__ import annotations

import argparse
import importlib
import json
import os
import sys
import traceback


def _anchor_files(prop: str):
    """anchors.files of the property (and of the properties whose clauses it re-decides) from properties.jsonl"""
    files = []
    p = os.path.join(os.path.dirname(os.path.dirname(os.path.abspath(__file__))), "properties.jsonl")
    try:
        with open(p) as fh:
            for line in fh:
                if line.strip():
                    d = json.loads(line)
                    if d.get("id") == prop:
                        files += list(d.get("anchors", {}).get("files", []))
    except OSError:
        pass
    return files


def main(argv=None) -> int:
    ap = argparse.ArgumentParser()
    ap.add_argument("prop")
    ap.add_argument("--tier", default=os.environ.get("VERIF_TIER", "quick"), choices=["quick", "thorough"])
    ap.add_argument("--replay", default=None)
    ap.add_argument("--repo", default=None, help="analyse this checkout instead of /repo (used by the self-test)")
    ap.add_argument("--no-selftest", action="store_true")
    ap.add_argument("--dump-keys", action="store_true", help="print the (rule, function, construct) keys of current violations")
    args = ap.parse_args(argv)
    if args.repo:
        os.environ["UPSA_REPO"] = args.repo
    seed = int(os.environ.get("VERIF_SEED", "0") or 0)
    from . import index as index_mod

    if args.repo:
        index_mod.REPO = args.repo
    from .report import Report, finish

    prop = args.prop.upper()
    try:
        mod = importlib.import_module(f"upsa.props.{prop}")
    except ModuleNotFoundError:
        print(f"ANALYSIS-ERROR: no check for property {prop}")
        return 2
    rep = Report(prop, args.tier, seed)
    try:
        idx = index_mod.Index(repo=index_mod.REPO)
        from . import report as report_mod

        report_mod.set_index(idx)
        from .props.extra import run_extra
        from .props.extra2 import run_extra2
        from .props.extra3 import run_extra3
        from .props.generic import run_generic

        def stage(name, fn):
            """A lost anchor is an analysis error (exit 2) — unless the anchored files were restructured (functions
            that reference private symbols, or contain closures, they did not in the pinned tree; new private
            functions): then the rules of this stage that come after the lost anchor are undecided, which is
            recorded and printed, and the other stages still run."""
            try:
                fn()
            except index_mod.AnalysisError as e:
                moved = report_mod.restructured_functions(_anchor_files(prop))
                if not moved:
                    raise
                rep.inconclusive(f"{prop} {name}", f"anchor lost: {e}"[:200], "", construct="anchor not found", detail=f"not decided: the anchored code was restructured ({'; '.join(moved)[:300]}); the rules of this stage after the lost anchor were not evaluated")
                rep.count("undecided_after_extract_method")

        stage("property rules", lambda: mod.run(idx, rep, args.tier))
        stage("seed-driven clauses (1)", lambda: run_extra(prop, idx, rep, args.tier))
        stage("seed-driven clauses (2)", lambda: run_extra2(prop, idx, rep, args.tier))
        stage("seed-driven clauses (3)", lambda: run_extra3(prop, idx, rep, args.tier))
        stage("generic detectors", lambda: run_generic(prop, idx, rep, args.tier))
        if args.tier == "thorough" and not args.no_selftest and not args.repo:
            from .selftest import run_selftest

            run_selftest(prop, rep, seed)
        if args.replay:
            with open(args.replay) as fh:
                want = json.load(fh)["key"]
            hit = [o for o in rep.obligations if not o.ok and o.key() == want]
            print(f"replay: finding {'REPRODUCED' if hit else 'not present'}: {want}")
        if args.dump_keys:
            for o in rep.obligations:
                if not o.ok:
                    print(json.dumps({"property": prop, **o.key(), "where": o.where}))
        code = finish(rep, idx)
    except index_mod.AnalysisError as e:
        print(f"ANALYSIS-ERROR: property={prop} {e}")
        # violations found before the analysis broke down are still reported
        if args.dump_keys:
            for o in rep.obligations:
                if not o.ok:
                    print(json.dumps({"property": prop, **o.key(), "where": o.where}))
        if any(not o.ok for o in rep.obligations):
            try:
                if finish(rep, None) == 1:
                    return 1
            except Exception:
                pass
        return 2
    except Exception:
        traceback.print_exc()
        print(f"ANALYSIS-ERROR: property={prop} checker raised")
        return 2
    sys.stdout.flush()
    return code


if __name__ == "__main__":
    sys.exit(main())
